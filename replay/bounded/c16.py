"""C16 bounded stand-ins: the real `ucg build`, one invocation for several files against one fresh process per file.

Oracle (property statement; reference/statements.md "Out Statements" for where an artifact goes, `ucg help build` for the shapes of an
invocation).  For a generated project directory
  (1) every file is built ALONE (`ucg build <file>` in a fresh process, all artifacts removed before): exit status, the lines the CLI
      prints for it (stdout and stderr merged in the order written, absolute paths of the temporary directory normalised, `.` / `..`
      path segments resolved) and the bytes of every file that exists afterwards and is not a source;
  (2) the same files are built in ONE invocation, in many shapes (orders, subsets, repetitions, other spellings of the paths, directory
      mode, `-r`, the same invocation twice in a row with the artifacts of the first run left in place).  The CLI prints `Building <file>`
      before each file: the lines up to the next `Building` are that file's lines.
  Demanded of every invocation:
    * the files it builds are the files it was given (directory arguments: the *.ucg files of that directory, with -r of its subtree);
    * each file's lines are exactly the lines it printed when built alone (diagnostic text, the file and line/column it points at, TRACE
      output) - so a file fails in the batch iff it fails alone, and with the same diagnostic;
    * the exit status is non-zero iff some file of the invocation fails alone;
    * the artifacts on disk afterwards are exactly the union of the artifacts the files leave when built alone, byte for byte
      (a failing file does not stop the files after it: they produce what they produce alone);
    * nothing is printed before the first `Building` that a build alone does not print.
Bounded: exactly the generated projects and invocation shapes named in `bound`.  `ucg test` batches are C13's business."""
import concurrent.futures
import itertools
import os
import random
import re
import shutil
import subprocess
import tempfile
import time

import realcode as R

WORKERS = 8
SET_VAR, SET_VAL, UNSET_VAR = 'VERIF_C16_SET', 'value of the set variable', 'VERIF_C16_NOT_SET'
EXT = {'json': 'json', 'yaml': 'yaml', 'toml': 'toml', 'env': 'env', 'flags': 'txt'}

# ------------------------------------------------------------------------------------------------------------------------ KNOWN
# Behaviour of the real code on the pinned HEAD that breaks a clause of the statement (checked by hand).  Each entry switches ONE
# tolerance below (look for known('<id>')); deleting an entry re-arms the strict oracle for it.
# (trace-of-cached-import was repaired in ucg, c510806: the import value cache is reset per built file; the strict oracle is armed.)
KNOWN = [
]


def known(kid):
    return any(k['id'] == kid for k in KNOWN)


# ------------------------------------------------------------------------------------------------------------------------ projects
class Project(object):
    """files: ordered {relative path: source}; data: {relative path: text} of non-ucg inputs (include targets)."""

    def __init__(self, name, files, data=None):
        self.name = name
        self.files = dict(files)
        self.data = dict(data or {})
        self.order = list(files)
        # direct project imports of each file, from the generated source text (the generator's own knowledge of its sources)
        self.imports = {}
        for f, src in self.files.items():
            s = set()
            for m in re.finditer(r'import\s+"([^"]+)"', src):
                if m.group(1).startswith('std/'):
                    continue
                t = os.path.normpath(os.path.join(os.path.dirname(f), m.group(1)))
                if t in self.files:
                    s.add(t)
            self.imports[f] = s

    def closure(self, f):
        """files reachable from f through imports (f itself only when it is on a cycle, which is never generated)"""
        seen, todo = set(), list(self.imports.get(f, ()))
        while todo:
            g = todo.pop()
            if g not in seen:
                seen.add(g)
                todo.extend(self.imports.get(g, ()))
        return seen

    def write(self, root):
        for f, src in list(self.files.items()) + list(self.data.items()):
            p = os.path.join(root, f)
            os.makedirs(os.path.dirname(p), exist_ok=True)
            with open(p, 'w') as fh:
                fh.write(src)

    def describe(self):
        return {f: self.files[f] for f in self.order}


def base_env():
    env = {k: v for k, v in os.environ.items() if not k.startswith('VERIF_C16') and k != 'UCG_IMPORT_PATH'}
    env[SET_VAR] = SET_VAL
    return env


class Sandbox(object):
    """One private copy of a project; every invocation of one Sandbox runs sequentially."""

    def __init__(self, proj):
        self.proj = proj
        self.root = os.path.realpath(tempfile.mkdtemp(prefix='verif_c16_'))
        proj.write(self.root)
        self.sources = set(proj.files) | set(proj.data)
        self.env = base_env()
        self.runs = 0

    def close(self):
        shutil.rmtree(self.root, ignore_errors=True)

    def artifacts(self):
        res = {}
        for d, _, fs in os.walk(self.root):
            for f in fs:
                rel = os.path.relpath(os.path.join(d, f), self.root)
                if rel not in self.sources:
                    with open(os.path.join(d, f), 'rb') as fh:
                        res[rel] = fh.read()
        return res

    def clean(self):
        for rel in self.artifacts():
            os.remove(os.path.join(self.root, rel))

    def norm_line(self, ln):
        def fix(m):
            rel = os.path.relpath(os.path.normpath(m.group(0)), self.root)
            return '<P>' if rel == '.' else '<P>/' + rel
        return re.sub(re.escape(self.root) + r'[A-Za-z0-9_./-]*', fix, ln)

    def rel(self, printed):
        """project-relative name of a file as the CLI prints it after `Building `"""
        return os.path.relpath(os.path.normpath(os.path.join(self.root, printed)), self.root)

    def run(self, args):
        """-> (rc, preamble lines, [(file, [lines])], raw output)"""
        self.runs += 1
        p = subprocess.run([R.ucg_binary(), 'build'] + args, cwd=self.root, env=self.env, stdout=subprocess.PIPE, stderr=subprocess.STDOUT,
                           stdin=subprocess.DEVNULL, timeout=120)
        out = p.stdout.decode('utf-8', 'replace')
        pre, segs = [], []
        for ln in out.splitlines():
            if ln.startswith('Building '):
                segs.append((self.rel(ln[len('Building '):].strip()), []))
            elif segs:
                segs[-1][1].append(self.norm_line(ln))
            else:
                pre.append(self.norm_line(ln))
        return p.returncode, pre, segs, out

    def expand(self, args):
        """the files an invocation is asked to build (set of project-relative names)"""
        rec = '-r' in args
        paths = [a for a in args if a != '-r'] or ['.']
        res = set()
        for a in paths:
            full = os.path.normpath(os.path.join(self.root, a))
            if os.path.isdir(full):
                for d, _, fs in os.walk(full):
                    if not rec and d != full:
                        continue
                    for f in fs:
                        if f.endswith('.ucg'):
                            res.add(os.path.relpath(os.path.join(d, f), self.root))
            else:
                res.add(os.path.relpath(full, self.root))
        return res


class Mismatch(Exception):
    def __init__(self, what, expected, observed):
        Exception.__init__(self, what)
        self.what, self.expected, self.observed = what, expected, observed


def build_alone(proj, f):
    """`ucg build f` in a fresh copy of the project without artifacts"""
    sb = Sandbox(proj)
    try:
        rc, pre, segs, out = sb.run([f])
        if len(segs) != 1 or segs[0][0] != f:
            # the lines of a batch could not be attributed to files: no verdict, not a violation
            raise RuntimeError('harness: `ucg build %s` alone does not announce exactly `Building %s`: %r' % (f, f, out[-300:]))
        return dict(rc=rc, pre=pre, lines=segs[0][1], arts=sb.artifacts(), raw=out)
    finally:
        sb.close()


def optional_line(proj, ln, cur, earlier):
    """KNOWN tolerances: a line of file `cur`'s alone output that may be missing in a batch after the files `earlier`."""
    if known('trace-of-cached-import'):
        m = re.match(r'TRACE: .* at file: <P>/(\S+) line: \d+ column: \d+$', ln)
        if m and m.group(1) != cur and any(m.group(1) in proj.closure(e) for e in earlier):
            return True
    return False


def check_invocation(sb, alone, args, keep_artifacts=False):
    """Run one invocation and compare with the alone builds; raises Mismatch."""
    proj = sb.proj
    if not keep_artifacts:
        sb.clean()
    cmd = 'ucg build ' + ' '.join(args).replace('$ROOT', '<P>')
    args = [a.replace('$ROOT', sb.root) for a in args]
    want = sb.expand(args)
    rc, pre, segs, out = sb.run(args)
    out = out.replace(sb.root, '<P>')
    unknown = [f for f in want if f not in alone]
    if unknown:
        raise RuntimeError('harness: %s expands to files without an alone build: %s' % (cmd, unknown))
    built = set(f for f, _ in segs)
    if built != want:
        raise Mismatch('`%s` builds %s, it was asked to build %s' % (cmd, sorted(built), sorted(want)), sorted(want), out[-1200:])
    any_pre = alone[sorted(want)[0] if want else proj.order[0]]['pre']
    if pre != any_pre:
        raise Mismatch('`%s` prints before the first file: %r (a build alone prints %r there)' % (cmd, pre[:3], any_pre[:3]), any_pre, out[-1200:])
    earlier = []
    for f, lines in segs:
        exp = alone[f]['lines']
        e2 = [ln for ln in exp if not optional_line(proj, ln, f, earlier)]
        o2 = [ln for ln in lines if not optional_line(proj, ln, f, earlier)]
        if e2 != o2:
            raise Mismatch('`%s`: %s (position %d of the invocation) prints %r, built alone it prints %r' % (cmd, f, len(earlier) + 1, lines[:4], exp[:4]),
                           dict(file=f, alone_rc=alone[f]['rc'], alone_output=exp), dict(output_of_this_file=lines, whole_output=out[-1500:]))
        earlier.append(f)
    want_fail = any(alone[f]['rc'] != 0 for f in want)
    if (rc != 0) != want_fail:
        raise Mismatch('`%s` exits with %d; alone, the files that fail are %s' % (cmd, rc, [f for f in sorted(want) if alone[f]['rc'] != 0] or 'none'),
                       'exit status %s' % ('!= 0' if want_fail else '0'), 'exit status %d\n%s' % (rc, out[-1200:]))
    exp_arts = {}
    for f in sorted(want):
        for a, b in alone[f]['arts'].items():
            exp_arts.setdefault(a, set()).add(b)
    arts = sb.artifacts()
    if set(arts) != set(exp_arts):
        raise Mismatch('`%s` leaves the artifacts %s; the builds alone leave %s' % (cmd, sorted(arts), sorted(exp_arts)), sorted(exp_arts), dict(artifacts=sorted(arts), output=out[-1200:]))
    for a in sorted(arts):
        if arts[a] not in exp_arts[a]:
            raise Mismatch('`%s`: artifact %s has other bytes than after the build alone' % (cmd, a),
                           dict(artifact=a, bytes=sorted(repr(x) for x in exp_arts[a])), dict(artifact=a, bytes=repr(arts[a]), output=out[-800:]))


def violation_of(proj, m, cur):
    how = 'files written to an empty directory <P>; environment: %s=%r, %s not set; ' % (SET_VAR, SET_VAL, UNSET_VAR)
    if cur is None:
        how += 'each file built alone'
    else:
        how += 'every file first built alone with `ucg build <file>` (fresh process, no artifacts), then `ucg build %s`%s' % (
            ' '.join(cur[0]).replace('$ROOT', '<P>'), ' run a second time with the artifacts of its first run left in place' if cur[1] == 2 else ' in a copy of the directory without artifacts')
    return dict(project=proj.name, detail='project %s: %s' % (proj.name, m.what),
                input=dict(source=proj.describe(), data=proj.data, expected=m.expected, observed=m.observed, how=how))


def batch_task(proj, alone, chunk, stop, deadline):
    """chunk: list of (args, twice) -> (invocations, configurations skipped, None | violation dict)"""
    sb = Sandbox(proj)
    cur = None
    skipped = 0
    try:
        for args, twice in chunk:
            if stop[0] or time.time() > deadline:
                skipped += 1
                continue
            cur = (args, 1)
            check_invocation(sb, alone, args)
            if twice:
                cur = (args, 2)
                check_invocation(sb, alone, args, keep_artifacts=True)
        return sb.runs, skipped, None
    except Mismatch as m:
        return sb.runs, skipped, violation_of(proj, m, cur)
    finally:
        sb.close()


def run_all(items, seconds, chunk_size=3):
    """items: list of (Project, [(args, twice)]).  -> (alone builds, batch invocations, configurations not run in time, first violation or None)"""
    R.ucg_binary()
    deadline = time.time() + seconds
    stop = [False]
    n_alone = n_batch = n_skipped = 0
    viol = []
    with concurrent.futures.ThreadPoolExecutor(max_workers=WORKERS) as ex:
        fut = {}
        for pi, (proj, _) in enumerate(items):
            for f in proj.order:
                fut[(pi, f)] = ex.submit(build_alone, proj, f)
        alone = [dict() for _ in items]
        for (pi, f), fu in fut.items():
            alone[pi][f] = fu.result()
            n_alone += 1
        # chunk 0 of every project, then chunk 1 of every project, ...: when time runs out the tail of every project's list is dropped
        fut = {}
        for ci in range(0, max(len(c) for _, c in items), chunk_size):
            for pi, (proj, cfgs) in enumerate(items):
                if ci < len(cfgs):
                    fut[(pi, ci)] = ex.submit(batch_task, proj, alone[pi], cfgs[ci:ci + chunk_size], stop, deadline)
        for key, fu in fut.items():
            runs, skipped, v = fu.result()
            n_batch += runs
            n_skipped += skipped
            if v:
                stop[0] = True
                viol.append((key, v))
    return n_alone, n_batch, n_skipped, (sorted(viol, key=lambda x: x[0])[0][1] if viol else None)


# ------------------------------------------------------------------------------------------------------------------------ designed projects
def designed_projects():
    P = []
    # fixed 9e39a52: a cached import shape carried the position of the FIRST import of lib.ucg in the invocation (another file, another line)
    P.append((Project('shape_pos', {
        'lib.ucg': 'let foo = 1;\n',
        'a.ucg': 'let lib = import "lib.ucg";\nlet x = lib.foo + 1;\nout json x;\n',
        'b.ucg': '\n\n\nlet l = import "lib.ucg";\nlet y = not l;\nout json 1;\n',
        'c.ucg': 'let l1 = import "lib.ucg";\n\n  let l2 = import "./lib.ucg";\nlet y = not l2;\n',
        'd.ucg': '\n  let l = import "lib.ucg";\nlet y = 1 + l;\n',
    }), [['a.ucg', 'b.ucg'], ['a.ucg', 'd.ucg'], ['b.ucg', 'a.ucg', 'd.ucg'], ['c.ucg', 'b.ucg'], ['d.ucg', 'c.ucg', 'b.ucg'], ['lib.ucg', 'b.ucg', 'c.ucg', 'd.ucg']]))
    # fixed f342db1: output locks were never released
    P.append((Project('out_lock', {
        'lib.ucg': 'let foo = 1;\nout json {foo = foo};\n',
        'a.ucg': 'let lib = import "lib.ucg";\nlet x = lib.foo + 1;\nout json {x = x};\n',
        'two.ucg': 'out json 1;\nout json 2;\n',
        'b.ucg': 'let a = import "a.ucg";\nout yaml {y = a.x, l = a.lib.foo};\n',
    }), [['lib.ucg', 'a.ucg'], ['a.ucg', 'lib.ucg'], ['a.ucg', 'a.ucg'], ['two.ucg', 'two.ucg', 'lib.ucg'], ['b.ucg', 'a.ucg', 'lib.ucg', 'b.ucg'], ['lib.ucg', 'lib.ucg', 'a.ucg']]))
    # nested directories, imports through `..`, one file under three spellings, std import, TRACE in a shared library, env
    P.append((Project('tree', {
        'lib/shared.ucg': 'let v = 3;\nlet f = func(x) => x * 2;\nlet name = TRACE "shared";\nout yaml {v = v};\n',
        'sub/a.ucg': 'let s = import "../lib/shared.ucg";\nlet l = import "std/lists.ucg";\nout json {n = s.f(s.v), len = l.len([1, 2, 3])};\n',
        'sub/deep/b.ucg': 'let s = import "../../lib/shared.ucg";\nlet a = import "../a.ucg";\nlet t = TRACE s.v;\nout toml {x = s.v, e = env.%s};\n' % SET_VAR,
        'top.ucg': 'let a = import "sub/a.ucg";\nlet b = import "./sub/deep/b.ucg";\nlet b2 = import "sub/../sub/deep/b.ucg";\nout flags {x = b.t, y = "z"};\n',
        'sub/c.ucg': 'let b = import "deep/b.ucg";\nlet e = env.%s;\nout env {A = "b"};\n' % UNSET_VAR,
    }), [['sub/deep/b.ucg', 'top.ucg'], ['top.ucg', 'sub/a.ucg', 'top.ucg'], ['sub/c.ucg', 'lib/shared.ucg', 'sub/a.ucg'], ['-r', 'sub', 'top.ucg'], ['sub', 'lib'], ['-r', '.']]))
    # every way of failing, each after a shared import, and a file that builds
    P.append((Project('failing', {
        'lib.ucg': 'let v = 11;\nlet t = {a = 1, b = "s"};\nlet f = func(a :: 0) => a + 1;\n',
        'parse.ucg': 'let l = import "lib.ucg";\nlet oops = ;\n',
        'type.ucg': 'let l = import "lib.ucg";\nlet bad = l.v + "str";\nout json bad;\n',
        'rt.ucg': 'let l = import "lib.ucg";\nout json {v = l.v};\nlet boom = fail "boom @" % (l.v);\n',
        'range.ucg': 'let l = import "lib.ucg";\nlet p :: in 1..10 = l.v;\nout yaml {p = p};\n',
        'good.ucg': 'let l = import "lib.ucg";\nlet p :: in 1..20 = l.v;\nout yaml {p = l.f(p)};\n',
    }), [['parse.ucg', 'good.ucg'], ['type.ucg', 'good.ucg', 'type.ucg'], ['rt.ucg', 'good.ucg', 'range.ucg'], ['range.ucg', 'good.ucg'], ['good.ucg', 'range.ucg', 'rt.ucg', 'lib.ucg'], ['.']]))
    P.append((Project('failing2', {
        'lib.ucg': 'let v = 11;\nlet t = {a = 1, b = "s"};\nlet f = func(a :: 0) => a + 1;\nout json t;\n',
        'badlib.ucg': 'let l = import "lib.ucg";\nlet w = l.t.nofield;\n',
        'imp_bad.ucg': 'let l = import "lib.ucg";\nlet b = import "badlib.ucg";\nout json {w = b.w};\n',
        'missing.ucg': 'let l = import "lib.ucg";\nlet m = import "nothere.ucg";\nout json 1;\n',
        'unset.ucg': 'let l = import "lib.ucg";\nlet r = env.%s;\nout json r;\n' % UNSET_VAR,
        'conv.ucg': 'let l = import "lib.ucg";\nout toml {a = NULL, v = l.v};\n',
    }), [['badlib.ucg', 'imp_bad.ucg'], ['imp_bad.ucg', 'badlib.ucg', 'lib.ucg'], ['missing.ucg', 'conv.ucg', 'lib.ucg'], ['unset.ucg', 'unset.ucg', 'lib.ucg'], ['conv.ucg', 'imp_bad.ucg', 'missing.ucg'], []]))
    # libraries that fail while they are evaluated (not in the type checker), imported by several files
    P.append((Project('rt_lib', {
        'rtlib.ucg': 'let v = 5;\nlet e = env.%s;\nlet w = 7;\n' % UNSET_VAR,
        'a.ucg': 'let r = import "rtlib.ucg";\nout json {v = r.v};\n',
        'b.ucg': '\nlet r = import "./rtlib.ucg";\nout yaml {w = r.w};\n',
        'rng.ucg': 'let v = 50;\nout json {v = v};\nlet r :: in 1..10 = v;\nlet after = 1;\n',
        'c.ucg': 'let g = import "rng.ucg";\nout toml {v = g.v, after = g.after};\n',
        'good.ucg': 'let t = {a = 1};\nout flags t;\n',
    }), [['a.ucg', 'b.ucg'], ['b.ucg', 'a.ucg', 'a.ucg'], ['c.ucg', 'c.ucg', 'good.ucg'], ['rng.ucg', 'rng.ucg'], ['rtlib.ucg', 'a.ucg', 'rng.ucg', 'c.ucg', 'good.ucg']]))
    # a shared library whose (never called) function imports a missing file: every importer fails while its imports are linked, alone
    # and at every place in a batch; a library that does not parse, imported at different depths
    P.append((Project('link_fail', {
        'lib.ucg': 'let v = 1;\nlet opt = func () => import "./missing.ucg";\n',
        'a.ucg': 'let l = import "./lib.ucg";\nout json {a = l.v};\n',
        'b.ucg': 'let l = import "lib.ucg";\nout json {b = l.v};\n',
        'c.ucg': 'let b = import "b.ucg";\nout yaml {c = 1};\n',
        'good.ucg': 'out json {g = 1};\n',
    }), [['a.ucg', 'b.ucg'], ['b.ucg', 'a.ucg'], ['lib.ucg', 'a.ucg', 'good.ucg'], ['c.ucg', 'a.ucg', 'b.ucg'], ['good.ucg', 'a.ucg', 'a.ucg']]))
    # the same base names in two directories: whatever is shared must be keyed by the file, not by the spelling of the import
    P.append((Project('same_name', {
        'x/lib.ucg': 'let v = "from x";\nout json {v = v};\n',
        'y/lib.ucg': 'let v = 2;\nout json {v = v};\n',
        'x/conf.ucg': 'let l = import "lib.ucg";\nlet w = l.v + "!";\nout yaml {v = l.v, w = w};\n',
        'y/conf.ucg': 'let l = import "lib.ucg";\nlet w = l.v + 1;\nout yaml {v = l.v + 1, w = w};\n',
        'conf.ucg': 'let x = import "x/conf.ucg";\nlet y = import "y/conf.ucg";\nlet yl = import "y/../y/lib.ucg";\nlet a = x.w + "s";\nlet b = y.w + yl.v;\n'
                    'out yaml {x = x.l.v, y = y.l.v, yl = yl.v, a = a, b = b};\n',
    }), [['x/conf.ucg', 'y/conf.ucg'], ['y/conf.ucg', 'x/conf.ucg', 'conf.ucg'], ['conf.ucg', 'y/lib.ucg', 'x/lib.ucg'], ['x', 'y'], ['-r'], ['y/lib.ucg', 'x/../y/conf.ucg', './conf.ucg']]))
    # assert statements are no-ops for `ucg build`: nothing of them may reach the next file
    P.append((Project('asserts', {
        'lib.ucg': 'let v = 1;\nassert {ok = v == 2, desc = "lib: v is two"};\n',
        'a_test.ucg': 'let l = import "lib.ucg";\nassert {ok = l.v == 1, desc = "v is one"};\nassert {ok = false, desc = "never"};\nout json {v = l.v};\n',
        'b.ucg': 'assert {ok = "yes", desc = "malformed"};\nout json 2;\n',
        'c.ucg': 'let l = import "lib.ucg";\nout json {c = l.v};\n',
    }), [['a_test.ucg', 'c.ucg'], ['lib.ucg', 'c.ucg', 'a_test.ucg'], ['b.ucg', 'c.ucg'], ['a_test.ucg', 'a_test.ucg', 'b.ucg'], ['.']]))
    # include expressions next to imports
    P.append((Project('include', {
        'a.ucg': 'let d = include json "d/data.json";\nlet n = include str "notes.txt";\nout yaml {d = d, n = n};\n',
        'd/b.ucg': 'let d = include json "data.json";\nlet a = import "../a.ucg";\nout json {k = d.k, n = a.n};\n',
        'c.ucg': 'let d = include json "d/nothere.json";\nout json d;\n',
    }, data={'d/data.json': '{"k": [1, 2, {"z": "w"}]}', 'notes.txt': 'some notes\n'}), [['a.ucg', 'd/b.ucg'], ['d/b.ucg', 'c.ucg', 'a.ucg'], ['c.ucg', 'a.ucg', 'c.ucg'], ['-r', '.']]))
    return P


# ------------------------------------------------------------------------------------------------------------------------ random projects
DIRS = ['', '', 'sub', 'sub/deep', 'lib', 'x', 'y']
BASES = ['lib', 'conf', 'app', 'base', 'svc', 'main', 'util', 'site_test', 'db']
FAILS = ['parse', 'type_own', 'not_import', 'import_plus_str', 'no_field', 'no_binding', 'fail', 'range', 'alt', 'unset_env', 'missing_import', 'two_outs', 'toml_null',
         'constraint_type', 'not_import', 'int_plus_import', 'str_plus_import']


def spell(rnd, src_dir, target):
    """a relative import path from a file in src_dir to the project file target, in one of several spellings"""
    rel = os.path.relpath(target, src_dir or '.')
    k = rnd.random()
    if k < 0.5:
        return rel
    if k < 0.75:
        return './' + rel if not rel.startswith('..') else rel
    tdir = os.path.dirname(target)
    if tdir:   # detour: into the target's directory, out again, in again
        last = os.path.basename(tdir)
        return os.path.join(os.path.dirname(rel), '..', last, os.path.basename(rel))
    if src_dir:  # target in the root, importer below it: one more `..` than needed through the importer's own directory
        return os.path.join('..', os.path.basename(src_dir), rel)
    return rel


def gen_project(rnd, idx):
    n = rnd.randint(2, 6)
    dirs = rnd.sample(DIRS, rnd.choice([1, 2, 3]))
    names = []
    while len(names) < n:
        f = os.path.join(rnd.choice(dirs), rnd.choice(BASES) + '.ucg')
        if f not in names:
            names.append(f)
    files = {}
    fails = {}
    # every file exports `k`, of a type that differs from file to file; importers use it the way its type allows
    ktype = {f: rnd.choice(['int', 'str', 'list', 'tuple']) for f in names}
    KVAL = {'int': '%d', 'str': '"k%d"', 'list': '[%d, 1]', 'tuple': '{q = %d}'}
    KUSE = {'int': '%s.k + 1', 'str': '%s.k + "s"', 'list': '%s.k + [0]', 'tuple': '%s.k.q + 1'}
    for i, f in enumerate(names):
        d = os.path.dirname(f)
        L = []
        pad = lambda: ('\n' * rnd.choice([0, 0, 1, 2])) + (' ' * rnd.choice([0, 0, 0, 2, 4]))
        mods, picks = [], []
        if i > 0 and rnd.random() < 0.85:
            k = min(i, rnd.choice([1, 1, 2, 3]))
            # libraries imported by several files: the first two files are favoured
            cands = names[:i]
            for _ in range(k):
                t = rnd.choice(cands[:2]) if rnd.random() < 0.5 else rnd.choice(cands)
                if t not in picks:
                    picks.append(t)
            for t in picks:
                m = 'm%d' % len(mods)
                L.append('%slet %s = import "%s";' % (pad(), m, spell(rnd, d, t)))
                mods.append(m)
                if rnd.random() < 0.2:   # the same file once more, under another spelling
                    L.append('%slet %sb = import "%s";' % (pad(), m, spell(rnd, d, t)))
        std = None
        if rnd.random() < 0.3:
            std = rnd.choice(['lists', 'tuples'])
            L.append('%slet %s = import "std/%s.ucg";' % (pad(), std, std))
        base = rnd.randint(1, 40)
        vexpr = str(base)
        if mods and rnd.random() < 0.6:
            vexpr = '%s.v + %d' % (rnd.choice(mods), base)
        if rnd.random() < 0.25:
            vexpr = 'TRACE (%s)' % vexpr
        L.append('%slet v = %s;' % (pad(), vexpr))
        nm = '"%s#%d"' % (os.path.basename(f)[:-4], idx)
        if rnd.random() < 0.2:
            nm = 'env.%s' % SET_VAR
        L.append('%slet name = %s;' % (pad(), nm))
        L.append('%slet k = %s;' % (pad(), KVAL[ktype[f]] % rnd.randint(0, 99)))
        L.append('%slet t = {a = v, b = name};' % pad())
        L.append('%slet l = [v, %d];' % (pad(), rnd.randint(0, 9)))
        if rnd.random() < 0.5:
            L.append('%slet f = func(x%s) => x + %d;' % (pad(), rnd.choice(['', ' :: 0']), rnd.randint(1, 9)))
        fields = ['v = v', 'name = name']
        for m, t in zip(mods, picks if mods else []):
            if rnd.random() < 0.7:
                L.append('%slet k_%s = %s;' % (pad(), m, KUSE[ktype[t]] % m))
                fields.append('k_%s = k_%s' % (m, m))
            k = rnd.random()
            if k < 0.3:
                L.append('%slet u_%s = %s.t.a * 2;' % (pad(), m, m))
                fields.append('u_%s = u_%s' % (m, m))
            elif k < 0.55:
                L.append('%slet u_%s = %s.name + "!";' % (pad(), m, m))
                fields.append('u_%s = u_%s' % (m, m))
            elif k < 0.7:
                L.append('%slet w_%s = %s.t;' % (pad(), m, m))
                L.append('%slet u_%s = w_%s{c = %s.l};' % (pad(), m, m, m))
            elif k < 0.8:
                L.append('%slet u_%s :: {a = 0, b = ""} = %s.t;' % (pad(), m, m))
        if std == 'lists':
            L.append('%slet n_l = lists.len(l);' % pad())
            fields.append('n_l = n_l')
        elif std == 'tuples':
            L.append('%slet t_f = tuples.fields{tpl = t};' % pad())
        if rnd.random() < 0.2:
            L.append('%sassert {ok = v %s v, desc = "assert in %s"};' % (pad(), rnd.choice(['==', '!=']), os.path.basename(f)))
        fmt = rnd.choice(sorted(EXT)) if rnd.random() < 0.65 else None
        outline = None
        if fmt:
            flds = fields if fmt in ('json', 'yaml', 'toml') else fields[:2]
            outline = '%sout %s {%s};' % (pad(), fmt, ', '.join(flds))
        bad = None
        if rnd.random() < (0.15 if i < 2 else 0.4):   # the files most others import fail less often, or nearly everything fails
            kind = rnd.choice(FAILS)
            m = rnd.choice(mods) if mods else None
            bad = {'parse': 'let oops = ;', 'type_own': 'let bad = v + "s";', 'fail': 'let boom = fail "boom @ in %s" %% (v);' % os.path.basename(f),
                   'range': 'let r :: in 100..200 = v;', 'alt': 'let r :: "x" | "y" = name;', 'unset_env': 'let e = env.%s;' % UNSET_VAR,
                   'missing_import': 'let gone = import "%s";' % spell(rnd, d, os.path.join(rnd.choice(dirs), 'nothere.ucg')),
                   'two_outs': 'out json {second = v};', 'toml_null': None, 'constraint_type': 'let c :: "" = v;'}.get(kind)
            if kind in ('not_import', 'import_plus_str', 'no_field', 'no_binding', 'int_plus_import', 'str_plus_import'):
                if m is None:
                    kind, bad = 'type_own', 'let bad = v + "s";'
                else:
                    bad = {'not_import': 'let bad = not %s;' % m, 'import_plus_str': 'let bad = %s.v + "s";' % m, 'no_field': 'let bad = %s.t.nofield;' % m,
                           'no_binding': 'let bad = %s.nosuch;' % m, 'int_plus_import': 'let bad = 1 + %s;' % m, 'str_plus_import': 'let bad = "s" + %s;' % m}[kind]
            if kind == 'toml_null':
                outline = '%sout toml {v = v, z = NULL};' % pad()
            if kind == 'two_outs' and outline is None:
                outline = '%sout yaml {first = v};' % pad()
            fails[f] = kind
        if bad is not None and rnd.random() < 0.5:
            L.append(pad() + bad)
            bad = None
        if outline:
            L.append(outline)
        if bad is not None:
            L.append(pad() + bad)
        files[f] = '\n'.join(L) + '\n'
    return Project('random#%d' % idx, files)


# ------------------------------------------------------------------------------------------------------------------------ invocation shapes
def respell(rnd, f):
    k = rnd.random()
    if k < 0.4:
        return './' + f
    if k < 0.7:
        return os.path.join('$ROOT', f)    # absolute: filled in per sandbox
    d = os.path.dirname(f)
    if d:
        return os.path.join(d, '..', os.path.basename(d), os.path.basename(f))
    return './/' + f


def make_configs(proj, rnd, tier, must=(), budget=12):
    """-> list of (args, twice): the `must` lists, every order of the whole list when it has <= 3 (thorough: 4) files, then `budget` more drawn in turn
    from the shape families (sampled orders of longer lists, directory modes, repetitions, ordered pairs, other spellings, ordered triples)"""
    fs = proj.order
    n = len(fs)
    thorough = tier == 'thorough'
    # whole list: every order up to 3 (thorough: 4) files, sampled beyond
    if n <= (4 if thorough else 3):
        perms = [list(p) for p in itertools.permutations(fs)]
        rnd.shuffle(perms)
    else:
        perms = [list(fs), list(reversed(fs))]
        for _ in range(8):
            p = list(fs)
            rnd.shuffle(p)
            perms.append(p)
    # ordered selections of 2 and 3 files
    pairs = [list(p) for p in itertools.permutations(fs, 2)]
    rnd.shuffle(pairs)
    triples = [list(p) for p in itertools.permutations(fs, 3)] if n >= 4 else []
    rnd.shuffle(triples)
    # repetitions
    a, b = rnd.sample(fs, 2)
    c = rnd.choice(fs)
    reps = [[a, a], [a, b, a], [b, a, a, b], [c, c, c], [b, b, a]]
    rnd.shuffle(reps)
    # directory arguments, -r, no argument
    dirs = sorted(set(os.path.dirname(f) for f in fs if os.path.dirname(f)))
    dmodes = [['.'], [], ['-r']]
    if dirs:
        d = rnd.choice(dirs).split('/')[0]
        dmodes += [[d], ['-r', d, rnd.choice(fs)], [rnd.choice(fs), d]]
    rnd.shuffle(dmodes)
    dmodes = [['-r', '.']] + dmodes
    # other spellings of the listed paths
    spelled = []
    for _ in range(4):
        sel = rnd.sample(fs, rnd.randint(2, min(n, 4)))
        spelled.append([respell(rnd, f) for f in sel] + ([respell(rnd, sel[0])] if rnd.random() < 0.3 else []))
    cfgs = [(list(m), i == 0) for i, m in enumerate(must)]
    seen = set(tuple(m) for m in must)
    first = set()
    if n <= (4 if thorough else 3):
        # every order of the whole list, outside the budget
        cfgs += [(p, i == 0) for i, p in enumerate(perms) if tuple(p) not in seen]
        seen.update(tuple(p) for p in perms)
        perms = []
        first.add(0)
    fams = [perms, dmodes, reps, pairs, spelled, perms, pairs, triples]
    while budget > 0 and any(fams):
        for k, fam in enumerate(fams):
            while fam and tuple(fam[0]) in seen:
                fam.pop(0)
            if fam and budget > 0:
                args = fam.pop(0)
                seen.add(tuple(args))
                # the first whole-list order and (thorough) the first directory invocation and repetition are run twice in a row
                twice = k not in first and (k == 0 or (thorough and k in (1, 2)))
                first.add(k)
                cfgs.append((args, twice))
                budget -= 2 if twice else 1
    return cfgs


# ------------------------------------------------------------------------------------------------------------------------ stand-ins
ORACLE = ('per file: printed lines (diagnostic, file, line:column, TRACE) equal to `ucg build <file>` alone; exit status != 0 iff a file of the invocation '
          'fails alone; artifacts on disk = union of the alone artifacts, byte for byte')


def finish(name, bound, items, res):
    n_alone, n_batch, n_skipped, v = res
    bound = '%s; %d projects, %d builds alone, %d batch invocations' % (bound, len(items), n_alone, n_batch)
    if n_skipped and not v:
        bound += ' (%d of %d configurations dropped from the tails of the lists: time limit of the tier reached)' % (n_skipped, sum(len(c) for _, c in items))
    if v:
        return dict(name=name, bound=bound, cases=n_batch, status='violation', detail=v['detail'][:900], input=v['input'])
    return dict(name=name, bound=bound, cases=n_batch, status='ok', detail=ORACLE)


def standin_batch_designed(tier, seed):
    name = 'batch_designed'
    try:
        rnd = random.Random(seed)
        items = []
        for proj, must in designed_projects():
            items.append((proj, make_configs(proj, rnd, tier, must=must, budget=12 if tier == 'thorough' else 2)))
        bound = ('9 designed projects of 3..6 files (shape-cache position, output locks, directory tree with `..` imports / std / TRACE / env, every way of failing x2, libraries failing at run time, '
                 'equal base names, asserts, includes): designed file lists + orders, selections, repetitions, directory / -r / no-argument mode, other path spellings; '
                 'some invocations run twice in a row')
        return finish(name, bound, items, run_all(items, 16 if tier == 'thorough' else 5.5))
    except Exception as e:
        return dict(name=name, bound='designed projects', cases=0, status='error', detail=repr(e)[:500])


def standin_batch_random(tier, seed):
    name = 'batch_random'
    try:
        rnd = random.Random(seed * 7919 + 16)
        nproj = 60 if tier == 'thorough' else 3
        items = []
        for i in range(nproj):
            proj = gen_project(rnd, i)
            items.append((proj, make_configs(proj, rnd, tier, budget=18 if tier == 'thorough' else 9)))
        bound = ('%d random projects (seed %d) of 2..6 files in up to 3 directories: import DAG with several spellings (./, ..), std imports, TRACE, env, asserts, at most one '
                 'out json|yaml|toml|env|flags per file, 15%% / 40%% of the files failing by themselves in one of 16 ways; every order of the whole list up to %d files (sampled beyond), ordered '
                 'selections of 2 and 3, repetitions, directory / -r / no-argument mode, other path spellings; some invocations run twice in a row' % (
                     nproj, seed, 4 if tier == 'thorough' else 3))
        return finish(name, bound, items, run_all(items, 62 if tier == 'thorough' else 3.5))
    except Exception as e:
        return dict(name=name, bound='random projects', cases=0, status='error', detail=repr(e)[:500])


STANDINS = [standin_batch_designed, standin_batch_random]
