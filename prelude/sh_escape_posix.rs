// ---- prelude/sh_escape_posix.rs: ORACLE for C08 — how a POSIX shell reads one word (inside verus!) ----
// Written from POSIX.1-2017 XCU §2.2 (Quoting), §2.3 (Token Recognition), §2.6 (Word Expansions), NOT from ucg's
// code.  `sh_scan(text, mode)` reads `text` from the left the way the shell's tokenizer does and returns
//   word     the characters delivered to the command after quote removal (§2.6.7),
//   active   true iff some character was *interpreted* instead of delivered: `$`/backquote (parameter expansion,
//            command substitution, arithmetic: §2.6.2-2.6.4) unquoted or inside "...", or an unquoted operator,
//            glob, tilde, comment, brace or history character (§2.2 list of characters that must / may have to
//            be quoted, plus bash's `{ } ! ^`).  Conservative: `active == false` means every character of the
//            word is literal.
//   complete false iff the text ended inside a quotation or after a dangling backslash,
//   rest     the unread text, beginning with the blank/newline that delimited the word (§2.3 rules 7, 8).
//
// §2.2.1  unquoted `\c` delivers c literally; `\<newline>` is a line continuation (both removed).
// §2.2.2  '...' delivers every character literally up to the next ' ; a ' cannot occur inside.
// §2.2.3  "..." delivers every character literally except `$`, backquote, and `\` when followed by one of
//         $ ` " \ <newline>  (then the pair stands for the second character; `\<newline>` is removed);
//         a `\` followed by anything else is delivered itself.
// §2.3    adjacent quoted and unquoted pieces belong to the same token; an unquoted blank or newline ends it.
// `=` is an ordinary character to the tokenizer (it only matters for recognising NAME=word assignments, §2.9.1).

pub enum ShMode { Unq, Sq, Dq }

pub struct ShWord {
    pub word: Seq<char>,
    pub active: bool,
    pub complete: bool,
    pub rest: Seq<char>,
}

pub open spec fn sh_blank(c: char) -> bool { c == ' ' || c == '\t' }
pub open spec fn sh_delim(c: char) -> bool { sh_blank(c) || c == '\n' }

pub open spec fn sh_unq_active(c: char) -> bool {
    c == '|' || c == '&' || c == ';' || c == '<' || c == '>' || c == '(' || c == ')' || c == '$' || c == '`'
    || c == '*' || c == '?' || c == '[' || c == '#' || c == '~' || c == '%'
    || c == '{' || c == '}' || c == '!' || c == '^'
}

pub open spec fn sh_cons(c: char, w: ShWord) -> ShWord {
    ShWord { word: seq![c] + w.word, active: w.active, complete: w.complete, rest: w.rest }
}
pub open spec fn sh_mark(w: ShWord) -> ShWord {
    ShWord { word: w.word, active: true, complete: w.complete, rest: w.rest }
}
pub open spec fn sh_stop(complete: bool, rest: Seq<char>) -> ShWord {
    ShWord { word: Seq::<char>::empty(), active: false, complete, rest }
}
pub open spec fn sh_tail(t: Seq<char>) -> Seq<char> { t.subrange(1, t.len() as int) }

pub open spec fn sh_scan(t: Seq<char>, mode: ShMode) -> ShWord
    decreases t.len()
{
    if t.len() == 0 {
        sh_stop(mode is Unq, t)
    } else {
        let c = t[0];
        let r = sh_tail(t);
        match mode {
            ShMode::Unq =>
                if sh_delim(c) { sh_stop(true, t) }
                else if c == '\'' { sh_scan(r, ShMode::Sq) }
                else if c == '"' { sh_scan(r, ShMode::Dq) }
                else if c == '\\' {
                    if r.len() == 0 { sh_stop(false, r) }
                    else if r[0] == '\n' { sh_scan(sh_tail(r), ShMode::Unq) }
                    else { sh_cons(r[0], sh_scan(sh_tail(r), ShMode::Unq)) }
                }
                else if sh_unq_active(c) { sh_mark(sh_scan(r, ShMode::Unq)) }
                else { sh_cons(c, sh_scan(r, ShMode::Unq)) },
            ShMode::Sq =>
                if c == '\'' { sh_scan(r, ShMode::Unq) }
                else { sh_cons(c, sh_scan(r, ShMode::Sq)) },
            ShMode::Dq =>
                if c == '"' { sh_scan(r, ShMode::Unq) }
                else if c == '\\' {
                    if r.len() == 0 { sh_stop(false, r) }
                    else if r[0] == '$' || r[0] == '`' || r[0] == '"' || r[0] == '\\' { sh_cons(r[0], sh_scan(sh_tail(r), ShMode::Dq)) }
                    else if r[0] == '\n' { sh_scan(sh_tail(r), ShMode::Dq) }
                    else { sh_cons('\\', sh_scan(r, ShMode::Dq)) }
                }
                else if c == '$' || c == '`' { sh_mark(sh_scan(r, ShMode::Dq)) }
                else { sh_cons(c, sh_scan(r, ShMode::Dq)) },
        }
    }
}

// the word the shell reads at the start of `t`
pub open spec fn sh_word(t: Seq<char>) -> ShWord { sh_scan(t, ShMode::Unq) }

// "arrives as exactly one word equal to s, nothing expanded, and reading stops exactly before `rest`"
pub open spec fn sh_yields(w: ShWord, s: Seq<char>, rest: Seq<char>) -> bool {
    w.word =~= s && !w.active && w.complete && w.rest =~= rest
}
// `rest` is the end of the text or begins with a blank / newline
pub open spec fn sh_at_delim(rest: Seq<char>) -> bool { rest.len() == 0 || sh_delim(rest[0]) }

// ---------- the two quotations the converters emit ----------
pub open spec fn sq_to() -> Seq<char> { seq!['\'', '\\', '\'', '\''] }
pub open spec fn sq(s: Seq<char>) -> Seq<char> { replace_char(s, '\'', sq_to()) }
pub open spec fn sh_squote(s: Seq<char>) -> Seq<char> { seq!['\''] + sq(s) + seq!['\''] }

pub open spec fn dq(s: Seq<char>) -> Seq<char> {
    replace_char(replace_char(replace_char(replace_char(s,
        '\\', seq!['\\', '\\']), '"', seq!['\\', '"']), '$', seq!['\\', '$']), '`', seq!['\\', '`'])
}
pub open spec fn sh_dquote(s: Seq<char>) -> Seq<char> { seq!['"'] + dq(s) + seq!['"'] }

// ---------- single quotes ----------
pub proof fn lemma_sq_scan(s: Seq<char>, suf: Seq<char>)
    requires sh_at_delim(suf)
    ensures sh_yields(sh_scan(sq(s) + seq!['\''] + suf, ShMode::Sq), s, suf)
    decreases s.len()
{
    let t = sq(s) + seq!['\''] + suf;
    if s.len() == 0 {
        assert(sq(s) =~= Seq::<char>::empty());
        assert(t[0] == '\'');
        assert(sh_tail(t) =~= suf);
        assert(sh_scan(t, ShMode::Sq) == sh_scan(suf, ShMode::Unq));
    } else {
        let s1 = s.subrange(1, s.len() as int);
        let t1 = sq(s1) + seq!['\''] + suf;
        lemma_sq_scan(s1, suf);
        let w1 = sh_scan(t1, ShMode::Sq);
        assert(seq![s[0]] + s1 =~= s);
        if s[0] != '\'' {
            assert(t =~= seq![s[0]] + t1);
            assert(sh_tail(t) =~= t1);
            assert(sh_scan(t, ShMode::Sq) == sh_cons(s[0], w1));
        } else {
            // ' \ ' '   : close the quotation, an escaped literal quote, reopen
            assert(t =~= seq!['\'', '\\', '\'', '\''] + t1);
            let u1 = seq!['\\', '\'', '\''] + t1;
            let u2 = seq!['\'', '\''] + t1;
            let u3 = seq!['\''] + t1;
            assert(sh_tail(t) =~= u1);
            assert(sh_scan(t, ShMode::Sq) == sh_scan(u1, ShMode::Unq));
            assert(sh_tail(u1) =~= u2);
            assert(sh_tail(u2) =~= u3);
            assert(u1[0] == '\\' && u2[0] == '\'');
            assert(sh_scan(u1, ShMode::Unq) == sh_cons('\'', sh_scan(u3, ShMode::Unq)));
            assert(sh_tail(u3) =~= t1);
            assert(u3[0] == '\'');
            assert(sh_scan(u3, ShMode::Unq) == w1);
        }
    }
}

// For ALL s: the shell reads '<sq(s)>' as the single word s, literally, and stops right after it.
pub proof fn lemma_squote_one_word(s: Seq<char>, suf: Seq<char>)
    requires sh_at_delim(suf)
    ensures sh_yields(sh_word(sh_squote(s) + suf), s, suf)
{
    let t = sh_squote(s) + suf;
    let t1 = sq(s) + seq!['\''] + suf;
    lemma_sq_scan(s, suf);
    assert(t[0] == '\'');
    assert(sh_tail(t) =~= t1);
    assert(sh_scan(t, ShMode::Unq) == sh_scan(t1, ShMode::Sq));
}

// ---------- double quotes ----------
pub open spec fn dq_special(c: char) -> bool { c == '\\' || c == '"' || c == '$' || c == '`' }
pub open spec fn dq_piece(c: char) -> Seq<char> { if dq_special(c) { seq!['\\', c] } else { seq![c] } }
pub open spec fn dq_map(s: Seq<char>) -> Seq<char>
    decreases s.len()
{
    if s.len() == 0 { Seq::<char>::empty() } else { dq_piece(s[0]) + dq_map(s.subrange(1, s.len() as int)) }
}

proof fn lemma_dq_one(c: char)
    ensures dq(seq![c]) =~= dq_piece(c)
{
    let a0 = seq![c];
    let a1 = replace_char(a0, '\\', seq!['\\', '\\']);
    lemma_replace_one(c, '\\', seq!['\\', '\\']);
    let a2 = replace_char(a1, '"', seq!['\\', '"']);
    if c == '"' { lemma_replace_one(c, '"', seq!['\\', '"']); } else { lemma_replace_absent(a1, '"', seq!['\\', '"']); }
    let a3 = replace_char(a2, '$', seq!['\\', '$']);
    if c == '$' { lemma_replace_one(c, '$', seq!['\\', '$']); } else { lemma_replace_absent(a2, '$', seq!['\\', '$']); }
    let a4 = replace_char(a3, '`', seq!['\\', '`']);
    if c == '`' { lemma_replace_one(c, '`', seq!['\\', '`']); } else { lemma_replace_absent(a3, '`', seq!['\\', '`']); }
}

// The four chained replaces equal the per-character map: the backslash pass runs FIRST, so the backslashes
// introduced by the later passes are never doubled, and no later pass matches a character introduced earlier.
pub proof fn lemma_dq_is_map(s: Seq<char>)
    ensures dq(s) =~= dq_map(s)
    decreases s.len()
{
    if s.len() == 0 {
        lemma_replace_empty('\\', seq!['\\', '\\']);
        lemma_replace_empty('"', seq!['\\', '"']);
        lemma_replace_empty('$', seq!['\\', '$']);
        lemma_replace_empty('`', seq!['\\', '`']);
        assert(s =~= Seq::<char>::empty());
    } else {
        let h = seq![s[0]];
        let s1 = s.subrange(1, s.len() as int);
        assert(h + s1 =~= s);
        lemma_dq_is_map(s1);
        lemma_dq_one(s[0]);
        let (b, q, d, k) = (seq!['\\', '\\'], seq!['\\', '"'], seq!['\\', '$'], seq!['\\', '`']);
        lemma_replace_concat(h, s1, '\\', b);
        let (h1, r1) = (replace_char(h, '\\', b), replace_char(s1, '\\', b));
        lemma_replace_concat(h1, r1, '"', q);
        let (h2, r2) = (replace_char(h1, '"', q), replace_char(r1, '"', q));
        lemma_replace_concat(h2, r2, '$', d);
        let (h3, r3) = (replace_char(h2, '$', d), replace_char(r2, '$', d));
        lemma_replace_concat(h3, r3, '`', k);
        assert(dq(s) =~= dq(h) + dq(s1));
    }
}

pub proof fn lemma_dq_scan(s: Seq<char>, suf: Seq<char>)
    requires sh_at_delim(suf)
    ensures sh_yields(sh_scan(dq_map(s) + seq!['"'] + suf, ShMode::Dq), s, suf)
    decreases s.len()
{
    let t = dq_map(s) + seq!['"'] + suf;
    if s.len() == 0 {
        assert(dq_map(s) =~= Seq::<char>::empty());
        assert(t[0] == '"');
        assert(sh_tail(t) =~= suf);
        assert(sh_scan(t, ShMode::Dq) == sh_scan(suf, ShMode::Unq));
    } else {
        let c = s[0];
        let s1 = s.subrange(1, s.len() as int);
        let t1 = dq_map(s1) + seq!['"'] + suf;
        lemma_dq_scan(s1, suf);
        let w1 = sh_scan(t1, ShMode::Dq);
        assert(seq![c] + s1 =~= s);
        if dq_special(c) {
            assert(t =~= seq!['\\', c] + t1);
            let u1 = seq![c] + t1;
            assert(sh_tail(t) =~= u1);
            assert(sh_tail(u1) =~= t1);
            assert(u1[0] == c);
            assert(sh_scan(t, ShMode::Dq) == sh_cons(c, w1));
        } else {
            assert(t =~= seq![c] + t1);
            assert(sh_tail(t) =~= t1);
            assert(sh_scan(t, ShMode::Dq) == sh_cons(c, w1));
        }
    }
}

// For ALL s: the shell reads "<dq(s)>" as the single word s, nothing expanded, and stops right after it.
pub proof fn lemma_dquote_one_word(s: Seq<char>, suf: Seq<char>)
    requires sh_at_delim(suf)
    ensures sh_yields(sh_word(sh_dquote(s) + suf), s, suf)
{
    let t = sh_dquote(s) + suf;
    let t1 = dq_map(s) + seq!['"'] + suf;
    lemma_dq_is_map(s);
    lemma_dq_scan(s, suf);
    assert(t[0] == '"');
    assert(sh_tail(t) =~= t1);
    assert(sh_scan(t, ShMode::Unq) == sh_scan(t1, ShMode::Dq));
}

// ---------- the contracts of the two real helpers (used by prelude/sh_escape_fns.rs and units/sh_escape.unit.rs) ----------
// r is what the helper returned for s: a POSIX shell reads '<r>' (resp. "<r>") as exactly the one word s,
// nothing interpreted, everything consumed; `r == sq(s)` / `r == dq(s)` lets callers use the lemmas above
// with any following text.
pub open spec fn sq_contract(s: Seq<char>, r: Seq<char>) -> bool {
    r == sq(s) && sh_yields(sh_word(seq!['\''] + r + seq!['\'']), s, Seq::<char>::empty())
}
pub open spec fn dq_contract(s: Seq<char>, r: Seq<char>) -> bool {
    r == dq(s) && sh_yields(sh_word(seq!['"'] + r + seq!['"']), s, Seq::<char>::empty())
}
pub proof fn lemma_sq_contract(s: Seq<char>)
    ensures sq_contract(s, sq(s))
{
    lemma_squote_one_word(s, Seq::<char>::empty());
    assert(sh_squote(s) + Seq::<char>::empty() =~= seq!['\''] + sq(s) + seq!['\'']);
}
pub proof fn lemma_dq_contract(s: Seq<char>)
    ensures dq_contract(s, dq(s))
{
    lemma_dquote_one_word(s, Seq::<char>::empty());
    assert(sh_dquote(s) + Seq::<char>::empty() =~= seq!['"'] + dq(s) + seq!['"']);
}
