// ---- prelude/tokenizer_macros.rs: abortable_parser's combinator macros (version pinned by Cargo.lock), OUTSIDE verus! ----
// Every macro is extracted from the dependency's source.  Macros without a loop are taken verbatim.  The four macros
// with a loop (text_token!, repeat!, until!, consume_all!) get
//   * `verus_exec_expr!{ .. }` around their block (insert-only: lets Verus clause syntax appear in a macro_rules body),
//   * a ghost snapshot `i0__` of the input and the loop clauses (insert-only); the clause bodies are spec functions of
//     units/tokenizer.unit.rs (`text_token_inv`, `repeat_inv`, `until_inv`, `consume_inv`, ...),
// and the rewrites named at each of them.
//@ extract dep:abortable_parser/src/combinators.rs :: macro run
//@ end
//@ extract dep:abortable_parser/src/combinators.rs :: macro do_each
//@ end
//@ extract dep:abortable_parser/src/combinators.rs :: macro input
//@ end
//@ extract dep:abortable_parser/src/combinators.rs :: macro peek
//@ end
//@ extract dep:abortable_parser/src/combinators.rs :: macro either
//@ end
//@ extract dep:abortable_parser/src/combinators.rs :: macro discard
//@ end
//@ extract dep:abortable_parser/src/combinators.rs :: macro optional
//@ end
//@ extract dep:abortable_parser/src/combinators.rs :: macro not
//@ end
//@ extract dep:abortable_parser/src/combinators.rs :: macro trap
//@ end
//@ extract dep:abortable_parser/src/combinators.rs :: macro complete
//@ end

// text_token!: the `for` loop head is rewritten (R13 by hand): Verus has no model of `str::bytes()`; std documents
// `Bytes` as the iterator over the bytes of `as_bytes()`, so the loop walks `as_bytes()` by index, in the same order.
// R1 drops the message text.
//@ extract dep:abortable_parser/src/combinators.rs :: macro text_token
//@   rule R1
//@   subst "{{ use $crate::Error;" => "{ verus_exec_expr!{ { use $crate::Error;"
//@   subst "let mut _i = $i.clone(); let mut count = 0;" => "let mut _i = $i.clone(); let ghost i0__ = _i; let mut count = 0;"
//@   subst "Box::new($i.clone()), )) } }};" => "Box::new($i.clone()), )) } } } };"
//@   subst "for expected in $e.bytes() {" => "let it__1 = $e.as_bytes(); let mut i__1: usize = 0; while i__1 < it__1.len() invariant_except_break text_token_inv(i0__, _i, it__1@, $e, i__1 as int, count as int), ensures text_token_done(i0__, _i, $e, count as int), decreases it__1.len() - i__1 { let expected = it__1[i__1]; i__1 += 1;"
//@   subst "if count == $e.len() {" => "proof { axiom_str_len_bound($e); } if count == $e.len() {"
//@ end

// until! / consume_all!: the closure `|| { loop { .. return .. } }` captures `_i` by mutable reference, which Verus does
// not support ("closures capturing a mutable reference"); the closure takes `_i` by value instead and is called with it
// (`_i` is not used after the call, so moving it in is the same computation).  Its signature names the lifetime 'a of
// the calling recogniser.  `use $crate::{.., Offsetable, Span, ..}` loses the two trait imports (their methods are
// inherent methods in this one-file crate).  Everything else: inserted clauses and proof hints.
// until! has one use in the tokenizer (the comment text); its clauses are about that rule.
//@ extract dep:abortable_parser/src/combinators.rs :: macro until
//@   subst "{{ use $crate::{Result, Offsetable, Span, SpanRange};" => "{ verus_exec_expr!{ { use $crate::{Result, SpanRange};"
//@   subst "let pfn = || {" => "let ghost i0__ = _i; let pfn = |mut _i: OffsetStrIter<'a>| -> (r__: Result<OffsetStrIter<'a>, &'a str>) requires until_inv(i0__, _i) ensures until_post(i0__, r__) {"
//@   subst "loop {" => "loop invariant until_inv(i0__, _i), start_offset == off_of(i0__), i0__ == $i, decreases repeat_left(_i) {"
//@   subst "return Result::Complete(_i, $i.span(range));" => "proof { lemma_until_span(i0__, _i); } return Result::Complete(_i, $i.span(range));"
//@   subst "pfn() }};" => "pfn(_i) } } };"
//@ end
// consume_all!(rule) has two uses (rule = is_symbol_char, ascii_digit).  `$($args)*::class()` names the byte class of
// the rule: a module with the rule's name (type namespace) holds it, see units/tokenizer.unit.rs.
//@ extract dep:abortable_parser/src/combinators.rs :: macro consume_all
//@   subst "{{ use $crate::{Result, Offsetable, Span, SpanRange};" => "{ verus_exec_expr!{ { use $crate::{Result, SpanRange};"
//@   subst "let pfn = || {" => "let ghost i0__ = _i; let pfn = |mut _i: OffsetStrIter<'a>| -> (r__: Result<OffsetStrIter<'a>, &'a str>) requires consume_inv(i0__, _i, $($args)*::class()) ensures consume_post(i0__, r__, $($args)*::class()) {"
//@   subst "loop {" => "loop invariant consume_inv(i0__, _i, $($args)*::class()), start_offset == off_of(i0__), i0__ == $i, decreases repeat_left(_i) {"
//@   subst "Result::Complete(_, _) => { }," => "Result::Complete(_, _) => { proof { lemma_consume_step(i0__, _i, $($args)*::class()); } },"
//@   subst "let range = SpanRange::Range(start_offset.._i.get_offset());" => "let range = SpanRange::Range(start_offset.._i.get_offset()); proof { lemma_consume_span(i0__, _i, $($args)*::class()); }"
//@   subst "pfn() }};" => "pfn(_i) } } };"
//@ end
// repeat! has one use (repeat!(ascii_ws)); its clauses are about that rule.
//@ extract dep:abortable_parser/src/combinators.rs :: macro repeat
//@   subst "{{ let mut _i = $i.clone(); let mut seq = Vec::new();" => "{ verus_exec_expr!{ { let mut _i = $i.clone(); let ghost i0__ = _i; let mut seq = Vec::new();"
//@   subst "None => $crate::Result::Complete(_i, seq), } }};" => "None => $crate::Result::Complete(_i, seq), } } } };"
//@   subst "loop {" => "loop invariant opt_error is None, repeat_inv(i0__, _i), ensures opt_error is None, repeat_done(i0__, _i), decreases repeat_left(_i) {"
//@ end
